"""Source of MANIFEST.json (run bin/mkmanifest).  One entry per claimed property."""
TRUST = ("Trusted: Coq 8.16.1 kernel (vm_compute, no native_compute); extraction with ExtrOcamlBasic only + ml/driver.ml; "
         "the Go harness; translators under tools/go2coq. ")
TECH = "machine-checked proof in Coq + extracted-model correspondence check against the implementation"

CHECKS = {
 "C10": dict(
  text=("Coq theorems over the int kernels TRANSLATED from operator.go/func.go on every run (exactness of + - * / % negate "
        "abs/length for all int64 operand pairs: int result iff it fits, exact big integer otherwise; division/modulo by zero "
        "are errors; modulo has the dividend's sign), lifted by a hand model of binopTypeSwitch to integers of any size in all "
        "9 representation pairs, Compare on integers, decimal printing reads back exactly. The hand model is tied to the code "
        "by a correspondence stream through the public API judged by the extracted model; the implementation is also judged "
        "against exact integer arithmetic (property oracle), number literals must print verbatim and floats in shortest "
        "round-trip valid-JSON form (implementation-level oracles against strconv)."),
  note=TRUST + "Assumed: Go int is 64-bit two's complement; math/big exact; float digits are strconv's (shortest round trip "
       "checked against strconv, not proved).",
  ref="DESIGN.md §5 C10", tech="proof over a model regenerated from source by a translator + correspondence"),
 "C15": dict(
  text=("Coq model of the command's run loop after flag parsing (cli.go run/runInternal/process/printValues, exit-status "
        "bookkeeping incl. the deferred --exit-status override, halt handling) with the library abstracted to the list of "
        "outcomes it yields per input; exit-code constants and ExitCode() methods are TRANSLATED from cli/cli.go, cli/error.go "
        "on every run. 12 theorems: stdout is the concatenation of rendered outputs with the selected terminator, diagnostics "
        "never on stdout, an error ends only that input, halt stops at once with code mod 256, and the exit status equals the "
        "documented table as a total function of the outcome history (induction over inputs and outcomes). Correspondence: "
        "in-process CLI runs (hook VerifRun) vs the model fed with the library's own outcomes; thorough tier also the built binary."),
  note=TRUST + "Flag parsing is not part of this model (C08 models parseFlags); texts of library error messages pass through; "
       "rendering of values is delegated to the encoder (C12).",
  ref="DESIGN.md §5 C15, docs/C15.md", tech=TECH),
}

CHECKS.update({
 "C07": dict(
  text=("Coq model of the Next loop as an ABSTRACT machine (any state type, any step function) with the context as an oracle "
        "sequence polled before every instruction; 7 theorems at full strength, for every step function, hence however the query "
        "loops: the context error is returned at exactly the first true poll with no further instruction executed "
        "(cancel_prompt, one_poll_per_instruction), the cancelled history is a prefix of the uncancelled one then ctx error then "
        "(nil,false) forever (cancel_history/prefix/terminal), exhaustion is absorbing, an emitted error can be followed by "
        "further Next calls. Tie to the code: for ~290 programs (finite and infinite) EVERY cancellation point k=0..N is run with a "
        "counting context and the extracted model, instantiated with the implementation's own uncancelled trace, must predict the "
        "cancelled run exactly (values, poll counts, 3 extra Next calls); a second harness built with the gojq_debug tag checks "
        "instruction fetches == polls; no-panic/hang/no-poll oracles on the implementation."),
  note=TRUST + "The step function is abstract: the theorems do not depend on instruction semantics; what ties the loop structure "
       "to execute.go is the per-poll correspondence. One-shot iterators for wrong variable counts are not modelled.",
  ref="DESIGN.md §5 C07, docs/C07.md", tech=TECH),
 "C11": dict(
  text=("Coq model of Compare (type ranks, int/float mixing through float64 conversion modelled with Flocq binary64, NaN via lt, "
        "bytewise strings, lexicographic arrays, objects by key list then values) and of sort/group_by/unique/min_by/max_by/"
        "bsearch/array subtraction/indices/keys as the code computes them. 12 theorems (34 named statements), none partial, on the "
        "full domain of the property (NaN-free, floats |x|<2^53, integers of any size): Compare equals Rcompare on exact reals; "
        "total preorder (reflexive, antisymmetric up to denotation, transitive, antisymmetry of swap); == != < <= > >= are its "
        "projections; sort is an ordered stable permutation and any stable sort gives the same output; unique, group_by (maximal "
        "runs), first-minimum/last-maximum, bsearch index or -1-insertion point, subtraction, indices, key order; the order as the "
        "property words it (exact rationals, code points) equals what Compare computes. Correspondence: gojq.Compare and the six "
        "operators on ALL ordered pairs of a 218-value universe in all Go representations, builtins on random arrays with ties, "
        "judged by the extracted model and by the exact-rational spec; transitivity over ~1.2M triples on the implementation."),
  note=TRUST + "Axioms shown by Print Assumptions (Coq Reals through Flocq B2R): ClassicalDedekindReals.sig_not_dec, sig_forall_dec, "
       "FunctionalExtensionality.functional_extensionality_dep, Classical_Prop.classic. sort.SliceStable is assumed to be a stable "
       "sort (theorem: every stable ordered arrangement equals the model's output). cli/encoder.go key order is exercised by C12.",
  ref="DESIGN.md §5 C11, docs/C11.md", tech=TECH),
 "C13": dict(
  text=("Coq models over byte strings of Go's UTF-8 decoding/encoding, explode/implode, strings.Split/join, @base64/@base64d "
        "(padding cut + raw decoding, sextet arithmetic), @uri/@urid, value-level getpath/setpath, and hand transcriptions of "
        "builtin.jq's to_entries/from_entries/with_entries/tostream/fromstream; Go 1.24 time.go civil-date arithmetic for "
        "gmtime/mktime. 16 theorems, all closed: each inverse pair returns its input on its whole domain (every byte string for the "
        "codecs, every valid UTF-8 string for explode|implode, every value for the entry/stream pairs, every whole second of years "
        "1..9999 for gmtime|mktime), setpath/getpath laws, tostream leaf events satisfy getpath(p)=leaf and replay rebuilds the "
        "value. Correspondence: every law is evaluated through the public API on a value universe + random nested values "
        "(implementation-level oracle) and every codec function separately against the extracted model. tojson|fromjson, "
        "tostring|tonumber, todate|fromdate and [paths]==[path(..)] are decided at the implementation-oracle level only."),
  note=TRUST + "Closed under the global context (no axioms). jq-defined pairs are proved over Gallina transcriptions of the "
       "builtin.jq text, tied by correspondence. timefmt-go (strftime/strptime) is outside /repo. Known finding: todate|fromdate at "
       "-62135596800 (KNOWN_FINDINGS.txt).",
  ref="DESIGN.md §5 C13, docs/C13.md", tech=TECH),
 "C14": dict(
  text=("Coq model of code-point positions: length, .[i:j], .[i], index/rindex/indices on strings and the byte-offset to "
        "code-point conversion used by match, with the regexp engine as a Section variable under hypotheses re_aligned/re_ordered. "
        "12 theorems, all closed: every position-based operation on a byte string agrees with the same operation on explode s "
        "(ill-formed bytes count one position each); for every reported (offset,length,string) of a match and of each capture, "
        "slicing the subject by code points returns the string; splits pieces interleaved with matches rebuild the subject and "
        "gsub with the whole-match group substituted back is the identity (over transcriptions of the builtin.jq bodies). "
        "Correspondence: subjects over an alphabet of 1-4 byte characters, combining marks and newlines (exhaustive to short "
        "lengths, random longer) x a regex grammar x flags; the harness calls Go's regexp with gojq's flag translation to obtain "
        "the oracle indices and checks the hypotheses on them; test/capture/scan/split/termination by implementation oracles under a timeout."),
  note=TRUST + "Closed under the global context. Go's regexp is outside /repo: assumed to return ordered, in-range, rune-aligned "
       "indices on valid UTF-8 (checked on every sampled call).",
  ref="DESIGN.md §5 C14, docs/C14.md", tech=TECH),
 "C16": dict(
  text=("Coq transcription of cli/stream.go's jsonStream state machine over JSON token sequences, of the input iterators "
        "(json/raw/slurp/files/null) as functions over lists, of input/inputs consumption and of the named/positional argument "
        "construction. 20 theorems, none partial, all closed: --stream events equal the declarative tostream in document order for "
        "every document; builtin.jq's fromstream applied to them rebuilds the documents; for every token prefix the events are a "
        "prefix of the full run followed by one error; successive input calls return the file-by-file concatenation exactly once "
        "then an error; -s . equals -n [inputs]; raw lines law; -Rs; first binding of a name wins; --args/--jsonargs positional "
        "switching. Correspondence: random multi-document streams split over files and stdin, truncated at EVERY byte for "
        "--stream, 17 flag/query combinations, judged by the extracted model and by in-language equivalents on the same binary."),
  note=TRUST + "encoding/json's tokenizer is outside /repo (its token sequence is the model's input). Flag recognition itself is C08's.",
  ref="DESIGN.md §5 C16, docs/C16.md", tech=TECH),
 "C18": dict(
  text=("Coq model of module path resolution over an abstract file system (candidate list name.jq, name/base.jq per search "
        "directory, relative search metadata against the importing file's directory, ~/.jq file vs directory) and of the "
        "compile-time function/variable table surgery of compileImport/compileModule, with a lexical specification resolver. "
        "14 theorems: resolution_order (first existing candidate, None iff none) for every file system and path list, search "
        "rewriting, init modules, modulemeta defs; static visibility PARTIAL: proved that whenever the specification binds a call "
        "the table surgery binds it identically (all module trees, mutual induction); the full statement is kept as a Definition "
        "and REFUTED by a theorem with a concrete leak (importer's names visible inside a later-imported module) - recorded as "
        "known findings. Correspondence: random module trees (depth<=3, diamonds, clashes, arities, data modules) under random "
        "search-path layouts in a temp dir; marker functions reveal which file/definition was bound; inlined-text oracle."),
  note=TRUST + "Closed under the global context. Lexical model of filepath.Clean/Join/Base/Dir validated against Go by the "
       "correspondence. Two known findings (scope leak into imported modules; data import of an included module not exposed).",
  ref="DESIGN.md §5 C18, docs/C18.md", tech=TECH),
 "C19": dict(
  text=("Translator (go/ast) regenerates the list of every reference to os/time.Now/time.Local/filepath/file I/O in package gojq; "
        "Coq holds the reviewed allow-list and proves (finite vm_compute check, stated as such) that every reference is on it. "
        "Coq models of the option decision table (no options: env/$ENV empty, input errors, imports error), of WithVariables "
        "binding order and count check, of WithInputIter consumption, and of the arity-mask arithmetic of WithFunction. "
        "18 theorems, all closed: no_ambient and independence from the world record, env_is_loader, vars_bind_in_order (+too "
        "few/many), input_in_order, arity_mask for ALL registration sequences with 0<=min<=max<=30 (accepted iff some registration "
        "covers n; the last covering registration runs), no wrap. Correspondence: programs over all builtins under differing "
        "environments/cwd/HOME/TZ/stdin; custom functions of arity ranges incl. overlaps vs equivalent jq defs across calling "
        "contexts (paths, try, backtracking, argument order)."),
  note=TRUST + "Closed under the global context. Interchangeability of a native with a jq def is a VM-level statement decided by "
       "the correspondence only; one known finding (native arguments evaluated in path-tracking mode).",
  ref="DESIGN.md §5 C19, docs/C19.md", tech=TECH),
 "C20": dict(
  text=("Coq transcription of stack.go/scope_stack.go (array with index/limit and next links), of the scope-frame logic of "
        "opcallrec/opscope/opret, and of execute.go's Next loop with all JSON values erased (c20/EVM.v: every data-dependent "
        "choice nondeterministic). 19 theorems (named _partial; C20_full stays visible): Stack_refines (the array stack refines a "
        "persistent list stack for every LIFO-disciplined push/pop/save/restore sequence and every pending saved view is "
        "unchanged), stack_len_bound, push_after_pop_reuses, tailcall_frame_reuse, tailcall_under_fork_grows, generic loop_bound; "
        "abs_sound / certify_sound: a VERIFIED CERTIFIER - whenever the closed-set exploration of the erased machine (or of the "
        "abstract interpreter of coq/c01vm's VM) succeeds on a code list, the footprint (forks + stack.data + scopes.data + values) "
        "of every reachable state is bounded by the computed constant, for every loop count, input and native behaviour; "
        "instantiated inside Coq on the code the CURRENT compiler emits for 30 iteration / tail-recursion forms (regenerated "
        "every run) and 20 forms of fragment F. On every run the extracted certifier is also applied to the compiled code of EVERY "
        "measured program (75 fixed forms, 48 deep nestings, generated tail-recursive definitions: 204 of 222 certified in the quick "
        "tier): a per-program proof of the bound; choice-point-free tail-recursive definitions MUST be certified. Observers on the "
        "implementation: peak footprint sampled at every instruction at n and 8n must not grow and must lie within the certified "
        "bound; every instruction fetch of the implementation must be a path of the erased machine; random LIFO op sequences on "
        "the real stacks vs the extracted model."),
  note=TRUST + "Closed under the global context. PARTIAL: the bound is proved per program by the verified certifier (all listed "
       "forms and every certified generated program), not once for every tail-recursive definition a user can write; the erased "
       "machine is tied to execute.go by per-instruction trace inclusion, not by proof; retained heap after GC is a runtime notion "
       "outside the model. Tail position is read as 'no pending choice point of the same activation'. Two known findings (mutual "
       "tail recursion through nested definitions).",
  ref="DESIGN.md §5 C20, docs/C20.md", tech="proof (verified bound certifier applied to the code the current compiler emits) + trace correspondence"),
})

CHECKS.update({
 "C02": dict(
  text=("(A) The property's own oracle on the implementation: for generated path expressions of the path-safe grammar x inputs with "
        "shared structure x update bodies, path(p) must emit exactly the paths whose getpath equals p's outputs, and p=x, p|=f, "
        "p op= x, del, delpaths, map_values, paths, pick, to_entries/with_entries, tostream must equal their defining reductions "
        "over path(p) evaluated on the same implementation (overlapping/ancestor/descendant/slice paths in every order; cyclic "
        "results detected before serialisation; invalid-path errors for computed values). (B) Coq HEAP-level model of the update "
        "natives (slice headers, pointer-keyed allocator, in-place writes and growth, mark-then-sweep delpaths, three-index "
        "reslice and owned-only deleteEmpty as in the current code). 8 theorems, closed: abs_update (on a heap with the "
        "single-owner invariant, for paths of keys/indices with an optional trailing slice and new values containing no allocated "
        "container: update fails exactly when value-level setpath fails, otherwise denotes setpath of the denoted input for every "
        "fuel (no cycle), frame for all unrelated values, invariant preserved), invariant_acyclic, value-level get/set and commute "
        "laws, delpaths descending; the unconditional statement is REFUTED by theorems with the D5/D9 witnesses (each side "
        "condition is necessary) - recorded as known findings. Correspondence: natives through a hook on random aliased heaps, "
        "result and post-state of every pre-existing container vs the extracted heap model. (C) C02b, over the reference semantics "
        "coq/sem (tied to the implementation by the C01 stream): path-tracking soundness as a theorem, unbounded in program, "
        "input and fuel, for the navigation fragment (identity, constant and computed keys, constant slices, iteration, suffix "
        "lists, optional forms, getpath, pipe, comma, empty, error, if, select, `as` bindings, try; extended as recorded in "
        "docs/C02.md): path(p) and p emit the same number of outputs, end the same way, and navigating the input along the k-th "
        "path gives the k-th value; navigation from a computed value inside path(..) raises the invalid-path error and never "
        "calls its consumer."),
  note=TRUST + "(B) closed under the global context; (C) depends on the Reals axioms Flocq's binary64 brings into coq/sem "
       "(ClassicalDedekindReals.sig_forall_dec, sig_not_dec, Classical_Prop.classic, functional_extensionality_dep). PARTIAL: slices "
       "followed by further components and heap-level delpaths are corresponded, not proved; path tracking of the VM itself is "
       "decided by oracle (A) and by the C01 semantics stream (the theorem is about the reference semantics); path constructs "
       "outside the proved fragment are listed in props/C02b.v. Three known findings (D5 cyclic value, D9 shared embedding, D10 "
       "string slice path).",
  ref="DESIGN.md §5 C02, docs/C02.md", tech=TECH),
 "C05": dict(
  text=("Coq heap model with EXPLICIT WRITE AND ALLOCATION LOGS of the natives that build or share containers (array construction "
        "accumulator with capacity aliasing, object construction, +, deep merge, add, sort, sort_by, unique_by, group_by, "
        "min/max_by, reverse, flatten, transpose, slicing, delpaths/deleteEmpty). 22 theorems, closed: logs are faithful; a call "
        "whose writes are fresh leaves every older value and cell (incl. hidden capacity slots) unchanged; writes_fresh for each "
        "modelled native for any append growth policy; slicing neither writes nor allocates; the [q] accumulator lives at a fresh "
        "address and is not aliased; delpaths writes only owned containers (live theorem selected by a translator flag derived "
        "from the current deleteEmpty signature). Translator lists every map-iteration and container-write site of packages gojq "
        "and cli; Coq proves (finite check) it equals the reviewed list with per-site order-independence reasons. Observer: "
        "histories of one Code (same object, equal copy, interleaved iterators, two processes) with deep snapshots of input, "
        "variables, emitted values; native stream comparing result, sharing signature and argument heap after the call."),
  note=TRUST + "Closed under the global context. PARTIAL: C05_full (the discipline over whole VM runs and C02's update natives) is "
       "stated, not proved; 'never appended to again after completion' is a reviewed code-shape site.",
  ref="DESIGN.md §5 C05, docs/C05.md", tech=TECH),
 "C06": dict(
  text=("What a Gallina model can carry of a statement about real schedules: the ownership discipline. Theorems (closed): "
        "code_readonly (a run whose writes are fresh leaves the whole pre-existing heap a bit-for-bit prefix of its final heap) and "
        "runs_commute (generic disjoint-footprint commutation over EVERY schedule of two runs, proved once over an abstract step "
        "relation with read/write footprints), resting on C05's writes_fresh theorems. C06_full (scheduler, Go memory model, "
        "sync.Map, deadlock) is stated as outside the model. Implementation-side observer: the harness built with -race runs each "
        "program from 8 goroutines x R repetitions on one cold shared Code with distinct inputs and with one shared read-only "
        "input plus a reader goroutine deep-reading input and code constants; any race report, fatal error, stall without "
        "progress, or per-goroutine output differing from the sequential baseline is a failing input."),
  note=TRUST + "PARTIAL by nature: the Go scheduler, memory model and race detector verdict are not expressible in the model; the "
       "theorem is about interleavings of model steps. The race detector is used as a write detector, not as a proof.",
  ref="DESIGN.md §5 C06 and §7, docs/C06.md", tech="proof of the ownership/commutation discipline in Coq + race-detector observer"),
 "C09": dict(
  text=("Translator regenerates from parser.go.y the precedence/associativity table, binary/unary rules, suffix tokens and from "
        "lexer.go the keyword and operator spellings (fails on any unrecognised directive). Coq: operator sublanguage (AST, "
        "printer as Query.writeTo prints it, precedence-climbing specification parser driven by the regenerated table) and a "
        "function-by-function model of lexer.go. 12 theorems, closed: the regenerated table decides all 24x24 operator pairs as "
        "jq's table; parse ts = Some e iff wf e and toks e = ts (sound, complete, unbounded); print/parse round trip on the parser "
        "image and uniqueness of reading; token stream and AST invariant under arbitrary whitespace/comment separators; byte-level "
        "round trip lex+parse(String(e)) = e; lexer totality (terminates within len+1 calls, no out-of-range branch, offsets "
        "monotone) and ParseError Offset/Token identify the rejected token for every token kind (C08/C17 lexer clauses). "
        "Implementation oracles on generated programs of the FULL surface grammar, the test.yaml queries, re-spacings and "
        "mutations: Parse(q.String()) deep-equals q, AST unchanged under re-spacing, Offset in range; model-vs-implementation "
        "token streams; all operator pairs and triples exhaustively."),
  note=TRUST + "Closed under the global context. PARTIAL: the goyacc automaton, the ~150 semantic actions and writeTo methods outside "
       "the operator sublanguage are not modelled (C09_full kept as a Definition); they are covered by the implementation-side "
       "round-trip oracles and by C08's LR driver theorem.",
  ref="DESIGN.md §5 C09, docs/C09.md", tech="proof over a grammar table regenerated from source + correspondence"),
})

CHECKS.update({
 "C01": dict(
  text=("Two sub-checks. (1) VM-level THEOREM (coq/c01vm, ~4300 lines, closed, no axioms): a Gallina transcription of the bytecode "
        "compiler (same code layout, back-patching and peephole pass) and of the backtracking stack VM, and compile-correctness: "
        "for every program of fragment F (identity, literals incl. constant arrays/objects, pipe, comma, empty, iterate, "
        "constant index, if/elif/else, //, try/catch and ?, array construction, reduce, foreach, label/break, `as` bindings, "
        "variables, natives error/length/+ - and comparisons on inlinable operands), every input and every instance of the "
        "natives, the VM on the compiled code emits exactly the outputs of the denotational generator semantics in order with the "
        "same ending, never gets stuck; peephole_sound separately. Tied to compiler.go on every run by comparing the model's "
        "instruction list with VerifDumpCode of the real compiler on ~27k generated programs, and outputs three ways. "
        "(2) Executable REFERENCE SEMANTICS of the whole core language (coq/sem: fuelled demand-driven CPS evaluator over the "
        "query.go AST transported from gojq.Parse, builtin.jq of the current tree regenerated as a Gallina term, ~110 natives, "
        "path tracking) extracted and judging every (program,input) case: all programs with <=3 constructs, random programs up to "
        "60 nodes biased to the hazards named in the property, the test.yaml queries and token mutations, inputs in all Go number "
        "representations; 13 theorems about the semantics (fuel monotonicity of the WHOLE evaluator, comma/pipe/empty laws, first "
        "stops, try catches body errors only, label/break, reduce/foreach unfolding, path concatenation)."),
  note=TRUST + "coq/c01vm: closed under the global context. coq/sem: Flocq's Reals axioms (ClassicalDedekindReals.sig_not_dec, "
       "sig_forall_dec, functional_extensionality_dep, Classical_Prop.classic) through binary64. PARTIAL: compile-correctness is "
       "proved for fragment F; closures/function definitions/paths/natives with closure operands are decided by correspondence "
       "against the reference semantics (model-based differential testing with ~2% of cases skipped as unsupported, reported in the "
       "evidence). C01_full is kept as a Definition.",
  ref="DESIGN.md §5 C01, docs/C01vm.md, docs/C01.md, docs/SEM.md",
  tech="compile-correctness proof in Coq for a fragment (model tied by instruction-list correspondence) + extracted reference semantics"),
 "C04": dict(
  text=("(1) Coq (coq/c01vm, closed): peephole_sound (the rewritten code is observationally equal under the side condition the "
        "optimiser now checks) and compile-correctness of the OPTIMISING compiler model (constant folding of arrays/objects, "
        "peephole, inlined arguments) against an optimisation-free denotation for fragment F. (2) Coq (coq/sem): 8 theorems - the "
        "semantics-preserving source rewrites R1..R7 that defeat each optimisation's precondition are identities in the reference "
        "semantics; the model of the constant folder (toNumber/toIndexKey) is sound; opindex equals _index. (3) No guard lines in "
        "compiler.go: every generated program is run optimised and with each de-optimising rewrite applied (wrap a literal element "
        "in (X|.), .[\"k\"|.], f(.|.), (f|.), if (c|.) ...) on the same implementation and must give identical observations, and "
        "agree with the reference semantics."),
  note=TRUST + "PARTIAL: rewrites on function arguments and bodies (R3/R4) are exercised, not proved; tail-call elimination and "
       "jump threading are exercised only. One known finding (error class of the constant-path assignment shortcut). The "
       "instruction-list correspondence tying coq/c01vm to compiler.go runs under C01 (and here in the thorough tier).",
  ref="DESIGN.md §5 C04, docs/C04.md, docs/C01vm.md", tech=TECH),
 "C08": dict(
  text=("Coq over tables TRANSLATED from the current parser.go on every run: parse_driver_total - for EVERY token list and fuel the "
        "goyacc driver model never reaches a panic site (table index out of range: finite check over 282 states x tokens and 158 "
        "rules lifted by forallb_forall; stack pop count and yyDollar indices: invariant proof using per-state minimum depths and "
        "the 2108-edge relation computed and checked inside Coq). flags_total: cli parseFlags returns Ok or a usage error for every "
        "argument vector (termination by rank). Totality of the error preview writer, encodeString and the float exponent clean-up. "
        "Lexer totality is C09's theorem. Crash search on the implementation (library in-process under recover and a deadline, "
        "command through a hook; thorough: the built binary under ulimit): byte-level mutations of the corpus queries, every "
        "builtin with wrong-typed/boundary arguments, inputs over all Go representations, random CLI argument vectors and stdin, "
        "extra Next calls after exhaustion and errors; Parse must return a query or a ParseError with Offset within the source."),
  note=TRUST + "Closed under the global context. PARTIAL: driver termination is not proved (never ran out of fuel 100(n+3) in the "
       "correspondence); type assertions inside grammar actions and the VM/natives are covered by the crash search and by "
       "C01/C03 models, not by a whole-pipeline theorem. Programs exceeding the time budget are counted as legitimately unbounded.",
  ref="DESIGN.md §5 C08, docs/C08.md", tech="proof over parser tables regenerated from source + crash search"),
 "C12": dict(
  text=("Coq models of Go's UTF-8 decoding, encodeString byte for byte, array/object/number encoding (floats through Section "
        "hypotheses on strconv's text with the gojq-specific logic modelled exactly) and the CLI encoder (indent/tab/colour, "
        "writeIndentInternal's doubling copy, 8 KiB flush) plus a reference RFC 8259 reader. 23 theorems, closed: for EVERY byte "
        "string encodeString is a JSON string literal, valid UTF-8, no raw control byte or DEL, and reads back as sanitize s (s "
        "itself when valid); decode(encode v) = norm v for every well-formed value, also through the CLI encoder for every option "
        "record and colour table; keys sorted; writeIndentInternal n emits exactly n units for every n and block length; the "
        "stateful encoder equals the pure text whatever the flush history; every line is indented depth*unit; stripping SGR and "
        "insignificant whitespace from any CLI mode gives the library encoding. Correspondence byte for byte: all strings of "
        "length <=2 over the property's byte alphabet (exhaustive), random strings, float bit-pattern classes, containers x option "
        "combinations, the whole command; Go-side oracles (encoding/json reads back equal, ParseFloat bit-exact, tojson|fromjson, "
        "YAML round trip)."),
  note=TRUST + "Closed under the global context. strconv.AppendFloat is outside /repo (shape and round-trip hypotheses checked on "
       "every sampled float). The YAML clause is go-yaml's code: implementation oracle only; two known findings there. "
       "-r/-j/--raw-output0 are modelled and compared, without a theorem.",
  ref="DESIGN.md §5 C12, docs/C12.md", tech=TECH),
 "C17": dict(
  text=("Coq transcription of cli/error.go getLineByOffset (LF/CRLF/CR scanning, 48/64-byte excerpt window, rune trimming, caret "
        "column with display width as a Section variable) and of both window bookkeepings of cli/inputs.go (seekable getContents; "
        "the pipe buffer trimmed to the decoder's input offset, for an arbitrary read-ahead). 8 theorems, closed: "
        "line_by_offset_correct for EVERY contents and offset (line number, excerpt is a piece of the right line, caret under the "
        "offending byte, no character cut), past-end and low offsets; pipe_window_correct for every read-ahead and "
        "seekable_window_correct under the hypothesis that every CR is followed by LF; both unconditional statements are REFUTED "
        "with lone-CR witnesses (known findings). Lexer Offset/Token theorem lives in C09. Correspondence: every corruption "
        "position x sizes up to several buffers x preceding documents x seekable/7 pipe read policies/file x LF/CRLF/CR, stderr "
        "header vs the model and vs the spec at the offset of an independent encoding/json run; bad queries of every token kind; "
        "thorough: the built binary with real files and pipes."),
  note=TRUST + "Closed under the global context. go-runewidth and go-yaml are outside /repo (width is a Section variable; YAML index "
       "rendering only). Three known findings: lone-CR terminators before the window (2), --stream offsets from dec.Token().",
  ref="DESIGN.md §5 C17, docs/C17.md", tech=TECH),
})

CHECKS.update({
 "C03": dict(
  text=("Coq model of 150 natives of internalFuncs (operators, formats, _index/_slice/_range, paths, sort family, 58 math functions, "
        "error/halt) over values with the FOUR Go number representations as distinct constructors, dispatching exactly as the Go "
        "type switches do, with every Go panic site an explicit Panic outcome; the model's function table is proved equal to the "
        "table TRANSLATED from func.go on every run. 14 theorems: dispatch_total (for all 150 natives, any oracles and any "
        "arguments the result is never Panic), Compare equals the documented order, + - * / % and comparisons and // meet the "
        "documented 7x7 type dispatch for arbitrary values, int kernels exact, 13 natives meet their documented function, "
        "representation independence of the conversions, Compare, operators, all math natives and a batch of natives (int, big "
        "and literal interchangeable at any size; float and fraction/exponent literals up to 2^53 and beyond the double range). "
        "Correspondence: every name/arity of `builtins` plus operators on all tuples of a ~60-value universe (279k direct native "
        "calls, 696k representation variants, compiled path vs direct call) judged by the extracted model and by the "
        "documented-function spec for 47 names; builtin.go vs a fresh parse of builtin.jq (DeepEqual per definition); no panic, "
        "no modified input."),
  note=TRUST + "Axioms: Flocq's Reals (ClassicalDedekindReals.sig_not_dec, sig_forall_dec, functional_extensionality_dep, "
       "Classical_Prop.classic). Hypothesis pf_bigint: ParseFloat of integer digits is correctly rounded. PARTIAL: "
       "C03_meets_doc_full / C03_rep_independent_full for ALL natives are Definitions, not theorems (the remaining natives are "
       "judged against Spec.v on every run); libm functions, frexp/modf, fromjson are oracles compared by class; regex and "
       "time natives are C14/C13's.",
  ref="DESIGN.md §5 C03, docs/C03.md", tech=TECH),
})

# ---- second wave (depth work): amendments appended to the level texts --------------------------------------
_AMEND = {
 "C19": " SECOND WAVE: history dimension (fresh vs warm Code), input iterators with error items (C19_input_after_error), argument "
        "order for every arity 0..30 (C19_opcall_args_in_order). props/C19b.v (coq/c01vm2/NativeAsDef.v, closed): a native "
        "binary-operator call with arbitrary operand queries has EXACTLY the denotation of the jq definition "
        "`def d($y; $x): $x OP $y; d(b; a)` (same outputs in order and same ending incl. operand errors and breaks, every "
        "environment/input/native instance, every fuel >= 1), i.e. the native evaluates its arguments as values with the LAST "
        "argument in the outermost loop whereas a definition binds its FIRST $parameter outermost; lifted to the final compiled "
        "code through C01vm_final_compile_correct; nullary natives likewise.",
 "C01": " SECOND WAVE: coq/c01vm2 extends the compile-correctness theorem to operands that need closures (oppushpc/opcallpc/opscope "
        "frames, generators in operands with the right operand in the outer loop) and to parameterless user-defined functions "
        "INCLUDING recursion (fuelled denotation: for every fuel on which the denotation terminates the VM terminates with the same "
        "observation; lexical scoping, rebinding, calls from closures, optimizeTailRec variants compared by instruction list). "
        "coq/sem/DenLink.v + VmLink.v + props/C01link.v: on the state-free fragment F0 the CPS reference semantics equals an eager "
        "list semantics, which is related to c01vm's denotation under an embedding of values and natives, giving the END-TO-END "
        "theorem C01link_vm_is_sem: the VM run of the compiled (peepholed) code yields exactly Sem.observe's outputs and ending. "
        "THIRD WAVE: c01vm2 now covers functions with FILTER parameters (closures over the call site's environment, arity "
        "overloading) and $VALUE parameters (evaluation order as compiled), recursion with the converse direction (the VM "
        "terminates iff the denotation does for some fuel, same observation) and never-stuck, and the whole-program "
        "optimizeTailRec theorem (C01vm_tailrec_compile_correct / C01vm_tailrec_sound: with and without the pass the code has the "
        "denotation's observation). The end-to-end link now covers all of fragment F except constant arrays/objects: also //, "
        "foreach, label/break (label ids related by a renaming lemma) and the arithmetic/comparison operators (right operand first). "
        "FINAL STATE of coq/c01vm2 (fragment F2: everything in F plus constant arrays/objects, binary operators with arbitrary "
        "operands, def with filter and $value parameters, calls, any recursion, optimizeTailRec, optimizeCodeOps): "
        "C01vm_final_compile_correct - for the FINAL emitted code (after both optimisation passes), every program of F2, every "
        "input, every instance of the natives and every fuel on which the fuelled denotation terminates, the VM terminates with "
        "exactly that observation; peephole soundness for ANY code over the frame machine under three side conditions that the "
        "compiler output is proved to satisfy; converse and never-stuck for the unoptimised code. Open: path mode, break out of a "
        "function body, four rarely used tail positions, object construction/interpolation/slices/assignment inside the VM model "
        "(these are decided by the reference-semantics correspondence).",
 "C02": " SECOND WAVE: abs_delpaths (mark-then-sweep with the owned-only deleteEmpty denotes value-level deletion against the original "
        "value, with frame, acyclicity and invariant), the whole compileAssign/compileModify loops lifted (C02_assign_sound, "
        "C02_modify_sound under body_ok; D5/D9 are exactly the runs outside body_ok), getpath aliasing, and slices followed by an "
        "index; only slice-directly-after-slice stays open (no counterexample in 460k heapsafe cases). 13 theorems.",
 "C03": " SECOND WAVE: fromjson is modelled with C12's proved reference reader plus encoding/json's additions and judged exactly on 840 "
        "systematic parse texts; implementation oracle fromjson(s) succeeds iff json.Valid(s).",
 "C04": " SECOND WAVE: branch-join and destructuring-alternative generator blocks; F3 attribution isolated by rewrite R7; the c01vm "
        "instruction-list correspondence runs under C04 in every tier; tail-call variants of optimizeTailRec are transcribed and "
        "compared by instruction list in coq/c01vm2.",
 "C07": " SECOND WAVE: coq/c07/VMLink.v instantiates the abstract step with coq/c01vm's concrete VM step (C07_c01vm_step_is_step, "
        "C07_c01vm_calls_run, C07_c01vm_cancel_history) and a stream compares pc/backtrack of every instruction fetch and every "
        "cancellation poll with that instance on fragment-F programs. 10 theorems.",
 "C08": " SECOND WAVE: TOTAL CORRECTNESS of the parser driver (C08_parse_driver_total_correct: for every token list and every fuel >= "
        "fuel_A*len+fuel_B computed from the tables the driver returns accept or syntax error - never panic, never out of fuel; "
        "ranking certificate computed and checked inside Coq, error recovery included), the dynamic type assertions of all grammar "
        "actions (translated with go/types; per-state type map computed in Coq; C08_symbol_type_map_is_a_function), and the command "
        "top level (coq/integ/CliTotal.v: parse_flags then C15's run maps every argument vector and world behaviour to a status in "
        "0..5 or a halt code; usage=2, option value=5, query error=3 rows); pipeline corollaries props/C08b.v. 26 theorems.",
 "C09": " SECOND WAVE: props/C09b.v ties the ACTUAL goyacc tables to the specification parser inside Coq: the LR driver of coq/c08 over "
        "the translated tables, with the semantic actions of the operator productions and token numbers translated from "
        "parser.go/parser.go.y, returns exactly the spec parser's tree (or both reject) for all 24 + 3*576 + 13824 operator strings "
        "and 6561 four-level strings (finite, bound stated; vm_compute), so 'binds as in jq' is a statement about the real tables. "
        "Exhaustive term x suffix round-trip matrix (93,960 sources) in the implementation oracle. 19 theorems.",
 "C12": " SECOND WAVE: raw output modes (-r/-j/--raw-output0 incl. NUL refusal), colour tables installed by setColors, the escaping "
        "policy (which ASCII bytes are copied/escaped, lower-case \\u00XX, no non-ASCII character ever escaped incl. U+2028/9), and a "
        "Flocq bridge showing the bit-pattern NaN test, clamp and f/e format choice are the IEEE comparisons for every double; "
        "agreement of C15's render with this encoder (props/C12b.v). 41 + 3 theorems.",
 "C13": " SECOND WAVE: [paths] = [path(..)] without the root for every value; todate|fromdate on years 1..9999 except the zero time "
        "(timefmt-go modelled for the one format); tojson|fromjson and tostring|tonumber derived from C12 (props/C13b.v); the source "
        "text hash of every transcribed builtin.jq definition is checked on every run. 24 theorems.",
 "C14": " SECOND WAVE: test iff match, capture (named groups, null for non-participating), scan, split/2 = [splits], and TERMINATION of "
        "the global match loop incl. empty matches under a progress hypothesis on the engine (fuel len+2 never exhausted, at most "
        "len+1 matches); engine hypotheses checked on every sampled regexp output; builtin.jq text hashes. 22 theorems.",
 "C20": " SECOND WAVE: bounds for ACTUAL compiled code. (i) an abstract interpreter of coq/c01vm's VM with a soundness proof and a "
        "certificate checker: 20 loop forms compiled by the model compiler are bounded by a constant independent of the input; "
        "(ii) coq/c20/EVM.v, the erased VM of execute.go with calls, closures, array stacks and frame logic (all non-path opcodes, "
        "nondeterministic data choices) with certify_sound; coq/gen/GenEvmForms.v holds the code the CURRENT compiler emits "
        "(regenerated every run through VerifDumpCode) for range, while, until, repeat, recurse, limit, first, last, isempty, reduce, "
        "foreach, map, inputs and seven tail-recursive definition shapes, each proved bounded (evm_forms_bounded); every instruction "
        "fetch of the implementation (debug trace + footprint) must be a path of that machine within the certified bound. 19 theorems.",
}
for _k, _v in _AMEND.items():
    CHECKS[_k]["text"] += _v

ORDER = ["C%02d" % i for i in range(1, 21)]
NOT_APPLICABLE = {}
PENDING_REASON = "check under construction in this development (builder not finished); not claimed yet"


# ---------------------------------------------------------------------------------------------------------------
# Session-6 addenda: appended to the texts above / substituted in the notes (kept separate so that the history of the
# waves stays readable).
EXTRA_TEXT = {
 "C01": (" FOURTH WAVE: fragment F3 of coq/c01vm2 adds OBJECT CONSTRUCTION (opobject; keys before values, earlier pairs in outer "
         "loops, constant folding), DESTRUCTURING `as` with nested array/object patterns (opindexarray), COMPUTED INDEX and SLICES "
         "(calls of _index/_slice with expbegin/expend), STRING INTERPOLATION (@text/@json): all 11 theorems of props/C01vm.v "
         "(final code = denotation, converse, never stuck, tail-call pass, peephole) now quantify over F3; later additions are "
         "listed in docs/C01vm.md. FIFTH WAVE: destructuring patterns in reduce/foreach, error(q), the optional suffix on every term form, "
         "format natives in interpolation; and builtins WRITTEN IN JQ are tied to the VM theorem: compiler.go compiles such a builtin on "
         "first use as an ordinary definition, so the program P' = definitions of builtin.jq in front of P is inside the fragment; on "
         "every run the harness checks that its transcription compiles to the same instruction list as the definitions parsed from "
         "/repo/builtin.jq, and the implementation's outputs on P itself are judged against the denotation of P' (map select not "
         "recurse .. while until first last isempty all any nth limit skip combinations to_entries ...). props/C01link2.v: the END-TO-END "
         "link for c01vm2 - the frame VM on the FINAL compiled code equals Sem.observe (outputs in order and ending) for the "
         "function-free part of F3 (objects, destructuring, computed index/slices, interpolation, operators with arbitrary operands), "
         "whenever Sem gives a verdict; functions are not linked yet (Sem's tick budget is not part of the state invariant). `?//` is documented as needing a generalisation of the generator predicate (its fork intercepts "
         "errors raised downstream of the whole expression)."),
 "C03": (" THIRD WAVE: 75 natives are now PROVED against Spec.v on all well-formed inputs (C03_meets_doc_listed: one statement "
         "quantifying over the explicit list), incl. bsearch (what sort.Search computes on any array; insertion point on partitioned "
         "arrays), the @html/@uri/@urid/@base64/@base64d formats with decode-after-encode identities, implode / ascii_*case on "
         "arbitrary bytes, length/abs/negate on json.Number literals, _slice / _index / getpath for every key and bound type (strings "
         "by code point, fractional bounds, float indices), _range on arbitrary numbers, flatten without a depth bound; 32 theorems. "
         "props/C13c.v (run by the C13 check) adds, for the clause 'builtins defined in jq behave as their definitions in builtin.jq': "
         "a call of a builtin.jq definition equals one tick followed by its body under the evaluator, for every table, and "
         "not/select/map/add/first/isempty/in as directly written computations, pinned to the regenerated builtin.jq."),
 "C07": (" THIRD WAVE: props/C07b.v models the one-shot iterators of Code.RunWithContext (variable-count check, with "
         "c.variables[len(values)] as an explicit partial index) and Query.RunWithContext (compile error): exactly one error then "
         "(nil,false) forever, never the context error, no poll - under every context; the absorbing/terminal statements lifted to "
         "every iterator RunWithContext returns; stream c07oneshot (18 variable lists x value counts x four contexts, 14 non-compiling "
         "queries, 3 extra Next calls). 19 theorems."),
 "C08": (" THIRD WAVE: props/C08d.v discharges the cli_status_total parameter of C08_full with the command model FROM ARGV with its "
         "output (coq/c15/Main.v cli_main: stdout bytes, stderr, status; never a model panic; status 2 exactly for flag-parse errors, "
         "0 for help/version, 5 for a rejected option value, 3 for parse/compile errors, else the documented table; nothing on stdout "
         "before the loop) and props/C08e.v instantiates compile_total / vm_total with the theorems of coq/c01vm2 for its fragment "
         "(the VM model, which has an explicit stuck outcome wherever execute.go would panic, is never stuck on any compiled program, "
         "input, natives instance and fuel; the compiler output satisfies the well-formedness side conditions): "
         "C08_full_on_fragment has no remaining parameter. 32 theorems."),
 "C09": (" THIRD WAVE (props/C09c.v, 14 theorems, closed): FULL PRINTER model (every writeTo / String() of query.go incl. the "
         "Index.writeTo spacing rule and string re-escaping) and FULL PARSER model: the goyacc driver of coq/c08 over the tables of "
         "the current parser.go with a semantic-value stack and all 157 productions' actions transcribed (keyed by the action TEXT, "
         "which the translator regenerates: a changed action breaks C09c_actions_transcribed), driven lazily by the lexer model with "
         "the inString feedback. Unbounded: print_tokens - lexing the printed text of ANY AST of a stated sub-grammar (terms, suffix "
         "chains, unary signs, all operators, if/try/reduce/foreach/label/as/def, objects) yields exactly tokens_of q, whatever the "
         "spacing. Finite over the REAL tables (bounds stated): unary sign takes the term with its suffixes (2688 sources), as / def / "
         "reduce / foreach / if / try / label delimit as documented, and parse_prog (print_prog p) = p for a family of 6196 programs. "
         "Stream `full`: exact AST incl. metadata or exact ParseError (Offset, Token), exact String() bytes and the model-level round "
         "trip on ~9600 (quick) / 133000 (thorough) programs; a mismatch is replayed on the implementation's round-trip oracles."),
 "C12": (" props/C12c.v (6 theorems): --raw-output0 rejects EXACTLY the strings containing NUL; a string under -r/-j/--raw-output0 is "
         "written verbatim (no UTF-8 handling on the raw path) then the terminator; raw flags change only the terminator of non-strings, "
         "whose body is valid JSON reading back as the value."),
 "C13": (" THIRD WAVE (props/C13c.v): to_entries, from_entries, to_entries|from_entries = id and with_entries(.) = id as theorems "
         "about the reference evaluator Sem APPLIED TO THE CURRENT builtin.jq (coq/gen/GenBuiltins.v, regenerated every run; the "
         "definitions a proof depends on are pinned by reflexivity, so an edit of builtin.jq breaks the obligation, not only a hash): "
         "exact equations between runs for every well-formed object, every consumer and every fuel above a stated bound. "
         "props/C13d.v, same style: tostream over Sem — its generator path(def r: (.[]?|r), .; r) is the children-first walk of the "
         "value for every value and every fuel above 7 x (number of nodes) + 14, and for a well-formed value the observation of "
         "tostream is EXACTLY the events of the value (leaf event [p, leaf] with getpath(p) = leaf in document order, closing event "
         "after the last child of every non-empty container); paths and path(..) are the same pre-order walk, path(..) emits the root "
         "[] first and paths drops exactly that path: [paths] = [path(..)] minus the root, same order, for every value. "
         "fromstream(f) of the pinned text is a foreach cell whose step on a leaf / closing event is an explicit transformer of the "
         "accumulator, and the observation of fromstream(tostream) on a well-formed value is the pure fold of those steps over the "
         "events of the value (the evaluator no longer appears); that this fold returns [v] (setpath algebra) and the setpath replay "
         "remain theorems over the hand transcriptions (props/C13.v). 42 theorems."),
 "C14": (" Implementation oracle capture-names: with Go's SubexpNames as the independent source, every capture of every match carries "
         "its group's name (also non-participating groups) and capture has exactly the named groups as keys."),
 "C15": (" SECOND WAVE (props/C15b.v, 18 theorems, closed): the command FROM ARGV - cli_main = flags parser (coq/c08 over the "
         "regenerated flag table) -> runInternal before the loop (help/version, colour decision, indent range, --yaml-output --tab, "
         "--arg family bindings, -f, default query, Parse/Compile) -> the run loop; for every argument vector and every world: never "
         "a model panic, the whole result of every phase, silence before the loop, status origin and documented codomain, input "
         "shaping by -n/-s, and the C15 theorems lifted to cli_main, colour and --yaml-output included. Stream c15argv: random "
         "argument vectors (flag mixes, clusters, --k=v, unknown flags, missing values, --, --args/--jsonargs, files, -f, -L, GOJQ_COLORS) "
         "through cli.VerifRun judged by the extracted cli_main: derived job, stdout bytes, stderr, status."),
 "C04": (" THIRD WAVE: the optimisation passes themselves are theorems of coq/c01vm2 (run under this check as the C04vm sub-check, "
         "props/C01vm.v), for every program of its fragment F3 (closures, user functions, recursion, objects, destructuring, "
         "computed index/slices, interpolation): C01vm_tailrec_sound (with and without optimizeTailRec the code has the same "
         "observation; opcallrec frame replacement and the jump form), C01vm_functions_peephole_sound (optimizeCodeOps incl. jump "
         "threading is sound for ANY code under three side conditions that C01vm_side_conditions proves of the compiler's output), "
         "C01vm_final_compile_correct (the FINAL code, after constant folding of arrays/objects, argument inlining, both passes, has "
         "the observation of the optimisation-free denotation). New generator block computednav (navigation from computed values in "
         "path / update / delete contexts: the order of the type check and the path-integrity check must not depend on whether the "
         "index is compiled as opindex or as a call)."),
 "C17": (" LATER (session 6): the two lone-CR window findings are REPAIRED (repo d5617da: countNewlines counts LF, CRLF once and a lone "
         "CR in the dropped bytes, and a trailing CR is not dropped so that CRLF is never split) and the window theorems hold WITHOUT "
         "the crlf_only hypothesis: C17_seekable_window_correct / _full_holds and C17_pipe_window_correct / _exact for every file "
         "size, offset, chunking and every mix of LF / CRLF / CR (terms_before is additive over any split; keep_cr_ok: the position "
         "after the guard never splits a pair); the old counting is kept behind a model flag with regression Examples (line 42 / 164 "
         "instead of 201) and a harness probe selects the instance the tree under test uses; stream crwin (terminators exactly at "
         "chunk and window boundaries, split CRLF, CR CR LF, both transports, short reads). 18 theorems."),
 "C16": (" Long raw line oracle in every tier: -R / -Rs / -nR with lines of 4095..1 MiB bytes around every buffer size (4 KiB, 16 KiB "
         "window, 64 KiB scanner limit), each followed by further lines."),
 "C19": (" The native-vs-definition stream includes a native that returns its argument slice itself (a retained slice must not see "
         "later arguments: defect repaired by repo commit 81d0c57)."),
}
NOTE_REPLACE = {
 "C03": [("PARTIAL: C03_meets_doc_full / C03_rep_independent_full for ALL natives are Definitions, not theorems (the remaining natives are judged against Spec.v on every run);",
          "Further hypothesis pf_sign (ParseFloat of '-'+r is the negation of ParseFloat r) where literals are negated. PARTIAL: C03_meets_doc_full / C03_rep_independent_full for ALL natives are Definitions, not theorems (75 natives proved, 18 on a stated sub-domain, 2 model-only: fromjson, delpaths; the others are judged against Spec.v on every run);")],
 "C04": [("PARTIAL: rewrites on function arguments and bodies (R3/R4) are exercised, not proved; tail-call elimination and jump threading are exercised only.",
          "PARTIAL: the source rewrites on function arguments and bodies (R3/R4) are exercised, not proved identities of the reference semantics; tail-call elimination, the peephole pass with jump threading, folding and inlining are proved for the fragment of coq/c01vm2 and exercised outside it (paths, `?//`, builtins written in jq); the constant-path `=` shortcut is observable (known findings F3, F5).")],
 "C07": [(" One-shot iterators for wrong variable counts are not modelled.", "")],
 "C08": [("PARTIAL: driver termination is not proved (never ran out of fuel 100(n+3) in the correspondence); type assertions inside grammar actions and the VM/natives are covered by the crash search and by C01/C03 models, not by a whole-pipeline theorem.",
          "props/C08b, C08d and C08e depend on the Reals axioms Flocq brings into the natives model (sig_not_dec, sig_forall_dec, functional_extensionality_dep, classic). PARTIAL: the whole-pipeline statement C08_full_on_fragment covers compiler and VM only for the fragment of coq/c01vm2 (outside it: crash search and the C01 correspondence) and rests on the seams listed in coq/integ/NoCrash.v (token numbering, lexer/driver interleaving, natives called with accepted arities on hole-free values: argued, not proved).")],
 "C09": [("PARTIAL: the goyacc automaton, the ~150 semantic actions and writeTo methods outside the operator sublanguage are not modelled (C09_full kept as a Definition); they are covered by the implementation-side round-trip oracles and by C08's LR driver theorem.",
          "PARTIAL: the parser and printer are now modelled in full and tied exactly on every corresponded program, but LR soundness/completeness for ARBITRARY token lists is not proved: the unbounded round trip and spacing-insensitivity of the AST hold for the operator sublanguage (C09), print_tokens for the stated sub-grammar, the rest by finite theorems over the real tables with their bounds and by the model-level round trip on every corresponded program (C09_full / C09c_full kept as Definitions).")],
 "C12": [(" -r/-j/--raw-output0 are modelled and compared, without a theorem.", " The raw modes are theorems of props/C12.v and C12c.v.")],
 "C13": [("Closed under the global context (no axioms). jq-defined pairs are proved over Gallina transcriptions of the builtin.jq text, tied by correspondence.",
          "props/C13.v and C13b.v: closed under the global context. props/C13c.v (over coq/sem): the Reals axioms Flocq's binary64 brings in (sig_not_dec, sig_forall_dec, functional_extensionality_dep, classic). The entries pairs are proved BOTH over Gallina transcriptions (tied by correspondence and text hashes) and over the evaluator applied to the regenerated builtin.jq (C13c); tostream events and paths likewise (C13d); fromstream(tostream) and the setpath replay only over the transcriptions.")],
 "C17": [("Three known findings: lone-CR terminators before the window (2), --stream offsets from dec.Token().",
          "One known finding: --stream offsets from dec.Token() (the two lone-CR window findings were repaired by repo commit d5617da).")],
 "C15": [("Flag parsing is not part of this model (C08 models parseFlags);", "Flag parsing is C08's model, composed with this one in props/C15b.v (cli_main); --stream / --yaml-input decoders are not replicated by the argv stream (such vectors run with -n or are skipped and counted);")],
}
for _p, _t in EXTRA_TEXT.items():
    CHECKS[_p]["text"] = CHECKS[_p]["text"] + _t
for _p, _rs in NOTE_REPLACE.items():
    for _a, _b in _rs:
        assert CHECKS[_p]["note"].count(_a) == 1, (_p, _a[:40])
        CHECKS[_p]["note"] = CHECKS[_p]["note"].replace(_a, _b)
