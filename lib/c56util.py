"""Shared by checks/c05.py and checks/c06.py: corpus extraction from cli/test.yaml, crash-tolerant
harness driving (the harness prints '##BEGIN <k>' on stderr before job k; a runtime fatal error kills
the process, the driver records job k and restarts at k+1)."""
import json
import os
import re
import subprocess

import verif as V

SAFE_FLAGS = {"-c", "-r", "-n", "-s", "-j", "-a", "-S", "-C", "-M", "-e", "--tab", "-nr", "-rn", "-cn", "-nc",
              "-sc", "-cs", "-rs", "-sr", "-ns", "-sn", "-rj", "-jr", "-nj", "-jn", "-cr", "-rc"}
# excluded by the property text (now, input, local time) or dependent on the environment / module files
SKIP_WORDS = re.compile(r"\b(now|input|inputs|localtime|strflocaltime|mktime|env|input_filename|import|include|"
                        r"modulemeta|halt|halt_error|input_line_number|get_search_list|debug|stderr|getpath/|"
                        r"todate|date|dateadd|datesub|localtime|strftime|strptime|gmtime)\b|\$ENV|\$__prog")


def json_docs(text):
    """split a stream of JSON documents (as the command's stdin); None when it is not plain JSON"""
    dec = json.JSONDecoder()
    docs, i, n = [], 0, len(text)
    while True:
        while i < n and text[i] in " \t\r\n":
            i += 1
        if i >= n:
            return docs
        try:
            _, j = dec.raw_decode(text, i)
        except ValueError:
            return None
        docs.append(text[i:j])
        i = j


def corpus_jobs(limit=None):
    """programs + inputs of cli/test.yaml usable through the library API"""
    import yaml
    path = os.path.join(V.REPO, "cli", "test.yaml")
    try:
        tests = yaml.safe_load(open(path, encoding="utf-8"))
    except Exception:
        return []
    jobs, seen = [], set()
    for t in tests or []:
        args = t.get("args") or []
        flags = [a for a in args if isinstance(a, str) and a.startswith("-") and len(a) > 1 and not re.match(r"^-\d", a)]
        rest = [a for a in args if a not in flags]
        if len(rest) != 1 or not isinstance(rest[0], str) or any(f not in SAFE_FLAGS for f in flags):
            continue
        q = rest[0]
        if SKIP_WORDS.search(q) or "error" in t and "expected" not in t and t.get("exit_code") == 3:
            continue
        text = t.get("input")
        null_input = any("n" in f for f in flags if not f.startswith("--"))
        slurp = any("s" in f for f in flags if not f.startswith("--"))
        if null_input or text is None:
            docs = ["null"]
        else:
            docs = json_docs(str(text))
            if docs is None or not docs:
                continue
            if slurp:
                docs = ["[" + ",".join(docs) + "]"]
        for d in docs[:2]:
            if len(d) > 20000:
                continue
            key = (q, d)
            if key in seen:
                continue
            seen.add(key)
            jobs.append(dict(program=q, input=d, origin="corpus"))
    return jobs[:limit] if limit else jobs


def write_jobs(name, jobs):
    d = os.path.join(V.BUILD, "cases")
    os.makedirs(d, exist_ok=True)
    p = os.path.join(d, name)
    with open(p, "w") as f:
        json.dump(jobs, f)
    return p


def drive(exe, stream, args, env=None, timeout=600, max_restarts=80, flags=None):
    """Run `exe <stream> <flags> <args> start=k` until the harness prints 'E' (end) on stdout.
    Protocol (stdout, unbuffered, one record per line):  B <k> begin job k | H ... case line |
    V <case>\t<what> implementation-only oracle failed | S <k> <reason> skipped | E end.
    stderr carries '##BEGIN <k>' markers, race reports and Go runtime crash text.
    A crash (fatal error / panic / timeout) is attributed to the last begun job; the driver restarts at k+1.
    Returns dict(records, crashes [(k, rc, stderr tail)], stderr {k: text}, timed_out)."""
    start = 0
    records, crashes, errs = [], [], {}
    restarts, timed_out = 0, False
    while True:
        cmd = [exe, stream] + (flags or []) + list(args) + ["start=%d" % start]
        try:
            p = subprocess.run(cmd, stdout=subprocess.PIPE, stderr=subprocess.PIPE, timeout=timeout, env=env)
            rc, out, err = p.returncode, p.stdout, p.stderr
        except subprocess.TimeoutExpired as e:
            rc, out, err = 124, e.stdout or b"", e.stderr or b""
            timed_out = True
        out = out.decode("utf-8", "replace")
        err = err.decode("utf-8", "replace")
        cur = None
        for chunk in re.split(r"(?m)^(##BEGIN \S+|##END)\n", err):
            if chunk.startswith("##BEGIN "):
                cur = chunk.split()[1]
            elif chunk == "##END":
                cur = None
            elif cur is not None and chunk.strip():
                errs[cur] = errs.get(cur, "") + chunk
        last, ended = None, False
        for line in out.splitlines():
            if line.startswith("B "):
                last = int(line[2:])
            elif line == "E":
                ended = True
            elif line:
                records.append(line)
        if ended and rc == 0:
            break
        if last is None:
            crashes.append((start, rc, V.tail(err, 25)))
            break
        crashes.append((last, rc, err[-6000:]))
        restarts += 1
        if restarts > max_restarts or (timed_out and restarts > 3):
            break
        start = last + 1
    return dict(records=records, crashes=crashes, stderr=errs, timed_out=timed_out)
